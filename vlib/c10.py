"""C10 — SyncEach: acknowledged appends and (StrictlyAtOnce) consumption survive power loss.

Theorems: coq/props/C10.v over coq/model/Durable.v (durability model over recorded I/O traces).
Per run, on the real crate (harness/wh, cfg walrus_verif + small geometry):
  1. generated SyncEach workloads (FD and mmap backends, StrictlyAtOnce, appends, batches, consuming
     reads; one variant whose FIRST instance is NoFsync so that no O_SYNC is in effect) are run once
     with the I/O event seam recording from before the instance is opened;
  2. correspondence: the recorded trace, translated event by event into the model's alphabet, must
     satisfy the protocol predicate the theorems assume (extracted `proto_ok`, as recorded AND with
     every O_SYNC flag cleared); the harness's view of O_SYNC (/proc/self/fdinfo) must agree with the
     flag the translation uses; the directory the model predicts for "everything kept" at a crash
     point must be byte-identical to the directory of a real run killed at that point;
  3. search: for crash points of the trace and admissible power-loss outcomes (all subsets of the
     unsynced operations up to 12 in the thorough tier / 3 in the quick tier, chosen samples above;
     extracted `pick_outcome`) the post-power-loss
     directory is materialised from the model's outcome (the kept operations are replayed into fresh
     files; WAL bytes come from the recorded run, index versions from runs killed right before the
     rename), a fresh process adopts it, is drained, and the extracted acceptors judge the result:
     `c10_appends_ok` (nothing acknowledged is lost or skipped) and `c10_strict_ok` (position)."""
import os
import re
import shutil
from concurrent.futures import ThreadPoolExecutor

from . import common as C
from . import crashprops as CP
from . import enginegen as G

TRUSTED_EXTRA = [
    "harness/wh (Rust) + the cfg(walrus_verif) I/O event seam in /repo (src/wal/verif.rs): the recorded trace is assumed to contain every storage-level I/O "
    "that matters for durability (checked per run: the model's 'everything kept' directory equals the directory of a process killed at that event, byte for byte)",
    "power-loss model (coq/model/Durable.v): fsync/msync(MS_SYNC)/O_SYNC make the inode's earlier operations durable, a directory fsync the earlier directory operations; "
    "each unsynced write/truncation/creation/rename independently kept or lost; single writes are atomic (no torn write inside one pwrite); the file system itself is not run — "
    "post-power-loss directories are materialised by replaying the kept operations of the model's outcome",
    "vlib/c10.py: translation of seam kinds into model events (write,uring_sqe->EWrite; flush,sync_file,idx_sync,clean_sync->ESyncFile; idx_write,clean_write->ETmpWrite; ...), "
    "acknowledgement points placed right after the last I/O event of an operation",
    "modelled, not verified: payload bytes abstract (writes identified by file, offset, length); the engine's recovery code is run, not modelled, in this property",
]
ASSUMPTIONS = [
    "the instance directory itself exists durably: fs::create_dir_all of <data_dir>/<key> is not followed by an fsync of its parent and is not an event of the seam",
    "one client thread; the clean-marker persister runs freely, its events are part of the trace at the positions where they were recorded",
    "no reclamation (remove events) inside the workloads; a trace with one is reported as outside the protocol",
    "clean-marker file: bytes of intermediate versions are not captured (its persister thread is not a crash point): the materialised directory contains the marker file only when the outcome holds its final version; the file is not read by appends or reads",
]

IDX_TMP, IDX, CLN_TMP, CLN = 100, 101, 102, 103
NAMES = {IDX_TMP: "read_offset_idx_index.db.tmp", IDX: "read_offset_idx_index.db",
         CLN_TMP: "topic_clean_index.db.tmp", CLN: "topic_clean_index.db"}
PAIRS = "%d:%d,%d:%d" % (IDX_TMP, IDX, CLN_TMP, CLN)
KEEP_ENV = dict(C.ENV, WH_KEEP="1")
FINDING_CLASS = "index-rename-not-dir-synced"


# ------------------------------------------------------------------------------- workloads
def gen_workload(rng, B, second_instance=False):
    backend = rng.choice(["fd", "mmap"])
    hdr = "mode=strict backend=%s sched=%s" % (backend, "nofsync" if second_instance else "each")
    pre = ["SCHED each", "REOPEN"] if second_instance else []
    ntop = rng.choice([1, 1, 2, 3])
    topics = ["t%d" % (i + 1) for i in range(ntop)]
    g = G.Gen(rng, B=B, big=True)
    ops, pid = [], 0
    nops = rng.choice([5, 9, 14, 20])
    heavy = rng.random() < 0.3      # many block-sized entries: rotations and a second WAL file
    for _ in range(nops):
        t = rng.choice(topics)
        x = rng.random()
        if x < 0.42:
            s = rng.choice([B - 256 - 40, B - 256, 3000, 2000]) if heavy else g.size()
            ops.append("A %s %d %d" % (t, pid, s)); pid += 1
        elif x < 0.58:
            n = rng.choice([1, 2, 3, 6])
            items = []
            for _ in range(n):
                s = g.size() if rng.random() < 0.4 else rng.randint(0, 500)
                items.append("%d:%d" % (pid, s)); pid += 1
            ops.append("B %s %s" % (t, ",".join(items)))
        elif x < 0.84:
            ops.append("R %s 1" % t)
        else:
            ops.append("BR %s %s 1 -" % (t, rng.choice([0, 300, 1000, B, 3 * B, "max"])))
    return dict(hdr=hdr, pre=pre, ops=ops, topics=topics, backend=backend, second=second_instance)


def load_corpus():
    out = []
    cdir = os.path.join(C.VERIF, "corpus", "C10")
    if os.path.isdir(cdir):
        for fn in sorted(os.listdir(cdir)):
            ls = [l.strip() for l in open(os.path.join(cdir, fn)).read().split("\n") if l.strip() and not l.startswith("#")]
            hdr = ls[0].split(None, 2)[2]
            pre = [l for l in ls[1:] if l.split()[0] in ("SCHED", "REOPEN")]
            ops = [l for l in ls[1:] if l.split()[0] not in ("SCHED", "REOPEN")]
            topics = sorted(set(l.split()[1] for l in ops))
            out.append(dict(hdr=hdr, pre=pre, ops=ops, topics=topics, backend=re.search(r"backend=(\w+)", hdr).group(1),
                            second=bool(pre), corpus=fn))
    return out


# ------------------------------------------------------------------------------- recorded run
def traced_run(wh, w, base):
    """run the workload once, recording; returns dict or raises"""
    shutil.rmtree(base, ignore_errors=True)
    os.makedirs(base)
    lines = ["CASE t %s trace=1" % w["hdr"]] + w["pre"] + ["EVENTS"]
    for op in w["ops"]:
        lines += [op, "EVENTS"]
    lines += ["FDS", "TRACEEND"]
    out, rc, err = C.run_lines([wh, "engine", base], lines, timeout=600, env=KEEP_ENV)
    if len(out) != len(lines) or not out[-1].startswith("trace:"):
        raise RuntimeError("traced run failed: rc=%s out=%r err=%s" % (rc, out[-3:], err[-200:]))
    npre = 1 + len(w["pre"])
    if out[0] != "ok" or any(o != "ok" for o in out[1:npre]):
        raise RuntimeError("open failed in traced run: %r" % (out[:npre],))
    n0 = int(out[npre][2:])
    res, counts = [], [n0]
    for j in range(len(w["ops"])):
        res.append(out[npre + 1 + 2 * j])
        counts.append(int(out[npre + 2 + 2 * j][2:]))
    fds = out[-2]
    trace = []
    body = out[-1][len("trace:"):]
    for ev in (body.split("|") if body else []):
        p = ev.split()
        if p and p[0] == "T":
            continue            # reclamation-tracker call records (C12 hook) share the seam trace; not I/O events
        trace.append((int(p[0]), p[1], p[2], int(p[3]), int(p[4])))
    dirs = [d for d in os.listdir(base) if d.startswith("c")]
    kdir = os.path.join(base, dirs[0], "k")
    return dict(res=res, counts=counts, n0=n0, fds=fds, trace=trace, kdir=kdir)


def translate(w, run):
    """recorded trace -> model events (+ acknowledgement events), annotated.  Returns dict with
    mt (list of event strings), per-op info, data-id table, WAL file names."""
    osync = (w["backend"] == "fd") and not w["second"]
    fileno, fnames = {}, {}
    mt, cpos = [], []          # cpos[i]: client count reached after mt[i] (for I/O events)
    ops = w["ops"]
    counts = run["counts"]
    nops = len(ops)
    opinfo = [dict(line=ops[j], res=run["res"][j], writes=[], vers=[], start=None, done=None) for j in range(nops)]
    data = {}                   # data-id -> (file number, off, len)
    next_id = [1000]
    ver = {IDX_TMP: 0, CLN_TMP: 0}
    ver_event = {}              # index version -> (client count of its rename event, position in mt of the rename)
    problems = []
    jn = [0]                    # next op to close

    def op_of_count(n):
        # client event n belongs to op j iff counts[j] < n <= counts[j+1]
        for j in range(nops):
            if counts[j] < n <= counts[j + 1]:
                return j
        return None

    def close_ops(c):
        while jn[0] < nops and counts[jn[0] + 1] <= c:
            j = jn[0]
            oi = opinfo[j]
            kind = oi["line"].split()[0]
            if kind in ("A", "B") and oi["res"] == "ok":
                t, es = CP.entries_of(oi["line"])
                if len(es) != len(oi["writes"]):
                    problems.append("op %d (%s): %d entries but %d write events" % (j, oi["line"], len(es), len(oi["writes"])))
                for (_f, _o, _l, i) in oi["writes"]:
                    mt.append("A %d" % i)
            elif kind in ("R", "BR") and oi["vers"] and not oi["res"].startswith("err") and oi["res"] not in ("panic", "died"):
                mt.append("AR %d %d" % (IDX, oi["vers"][-1]))
            oi["done"] = len(mt)
            jn[0] += 1

    for (n, kind, fname, off, ln) in run["trace"]:
        j = op_of_count(n) if n else None
        if j is not None and opinfo[j]["start"] is None:
            opinfo[j]["start"] = len(mt)
        if kind == "create":
            fileno[fname] = len(fileno) + 1
            fnames[fileno[fname]] = fname
            mt.append("C %d" % fileno[fname])
        elif kind == "set_len":
            mt.append("L %d %d" % (fileno.get(fname, 0), ln))
        elif kind in ("sync_file", "flush"):
            mt.append("S %d" % fileno.get(fname, 0))
        elif kind == "sync_dir":
            mt.append("D")
        elif kind in ("write", "uring_sqe"):
            i = next_id[0]; next_id[0] += 1
            f = fileno.get(fname, 0)
            data[i] = (f, off, ln)
            # io_uring writes complete at an unknown point before their completion event and are
            # flushed afterwards: they are recorded as plain (not O_SYNC-durable) writes
            mt.append("W %d %d %d %d %d" % (f, off, ln, i, 1 if (osync and kind == "write") else 0))
            if j is not None:
                opinfo[j]["writes"].append((f, off, ln, i))
        elif kind in ("uring_submit", "uring_cqe"):
            pass
        elif kind in ("idx_write", "clean_write"):
            t = IDX_TMP if kind == "idx_write" else CLN_TMP
            ver[t] += 1
            mt.append("T %d %d %d" % (t, ln, ver[t]))
        elif kind in ("idx_sync", "clean_sync"):
            mt.append("S %d" % (IDX_TMP if kind == "idx_sync" else CLN_TMP))
        elif kind == "idx_rename":
            ver_event[ver[IDX_TMP]] = (n, len(mt))
            mt.append("R %d %d" % (IDX_TMP, IDX))
            if j is not None:
                opinfo[j]["vers"].append(ver[IDX_TMP])
        elif kind == "clean_rename":
            mt.append("R %d %d" % (CLN_TMP, CLN))
        elif kind == "remove":
            mt.append("X %d" % fileno.get(fname, 0))
        else:
            problems.append("unknown seam kind %s" % kind)
        if n:
            close_ops(n)
    close_ops(10 ** 18)
    return dict(mt=mt, opinfo=opinfo, data=data, fnames=fnames, ver_event=ver_event, problems=problems,
                osync=osync, nver=ver[IDX_TMP], clean_versions=ver[CLN_TMP])


# ------------------------------------------------------------------------------- index versions
def version_runs(wh, w, run, tr, base):
    """one real run per index version, killed right before the rename: the temporary file then holds
    that version.  Returns {version: bytes} and, per version, the directory of that run."""
    shutil.rmtree(base, ignore_errors=True)
    os.makedirs(base)
    vers = sorted(tr["ver_event"])
    lines, nper = [], 0
    for v in vers:
        n_r = tr["ver_event"][v][0]
        c = ["CASE v%d %s" % (v, w["hdr"])] + w["pre"] + ["CRASHAT %d" % (n_r - run["n0"])] + w["ops"]
        nper = len(c)
        lines += c
    if not lines:
        return {}, {}
    out, rc, err = C.run_lines([wh, "engine", base], lines, timeout=900, env=KEEP_ENV)
    dirs = sorted((d for d in os.listdir(base) if d.startswith("c")), key=lambda d: int(d.split("_")[1]))
    blobs, vdirs = {}, {}
    for v, d in zip(vers, dirs):
        kd = os.path.join(base, d, "k")
        p = os.path.join(kd, NAMES[IDX_TMP])
        if os.path.exists(p):
            blobs[v] = open(p, "rb").read()
        vdirs[v] = kd
    return blobs, vdirs


# ------------------------------------------------------------------------------- materialising an outcome
def parse_outcome(s):
    m = re.match(r"dir:(\S*) # files:(\S*) # refl:(\S*) # ver:(\S*)", s.strip())
    d = {}
    for kv in m.group(1).split(","):
        a, b = kv.split("=")
        d[int(a)] = None if b == "-" else int(b)
    files = {}
    if m.group(2) != "-":
        for part in m.group(2).split(";"):
            ino, ops = part.split(":", 1)
            files[int(ino)] = [] if ops == "-" else [tuple(o.split(".")) for o in ops.split("+")]
    ver = {}
    if m.group(4) != "-":
        for kv in m.group(4).split(","):
            a, b = kv.split("=")
            ver[int(a)] = b
    # what recovery can see: WAL files, the read-offset index, whether a leftover temporary index exists
    # (the clean-marker file is not read by appends or reads)
    rel = sorted((n, i) for n, i in d.items() if n not in (IDX_TMP, CLN_TMP, CLN))
    relkey = repr([(n, files.get(i) if i is not None else None) for n, i in rel]) + ("+tmp" if d.get(IDX_TMP) is not None else "")
    return dict(dir=d, files=files, refl=m.group(3), ver=ver, key=m.group(1) + "#" + m.group(2), relkey=relkey)


def file_bytes(ops, src):
    buf = bytearray()
    for o in ops:
        if o[0] == "L":
            n = int(o[1])
            if n < len(buf):
                del buf[n:]
            else:
                buf.extend(b"\0" * (n - len(buf)))
        else:
            off, ln, i = int(o[1]), int(o[2]), int(o[3])
            b = src(i, ln)
            if len(buf) < off + ln:
                buf.extend(b"\0" * (off + ln - len(buf)))
            buf[off:off + ln] = b
    return bytes(buf)


class Source:
    """bytes of a data-id: WAL writes from the recorded run's files, index versions from the
    version runs, clean-marker versions from the recorded run's final marker file"""
    def __init__(self, run, tr, blobs):
        self.run, self.tr, self.blobs = run, tr, blobs
        self.cache = {}
        p = os.path.join(run["kdir"], NAMES[CLN])
        self.marker = open(p, "rb").read() if os.path.exists(p) else b""

    def wal(self, f):
        if f not in self.cache:
            self.cache[f] = open(os.path.join(self.run["kdir"], self.tr["fnames"][f]), "rb").read()
        return self.cache[f]

    def for_name(self, name):
        def src(i, ln):
            if name in (IDX, IDX_TMP):
                b = self.blobs.get(i, b"")
            elif name in (CLN, CLN_TMP):
                b = self.marker
            else:
                f, off, l2 = self.tr["data"][i]
                b = self.wal(f)[off:off + l2]
            return (b + b"\0" * ln)[:ln]
        return src

    def real_name(self, name):
        return NAMES.get(name) or self.tr["fnames"][name]


def materialise(o, srcs, dest):
    kd = os.path.join(dest, "k")
    os.makedirs(kd, exist_ok=True)
    for name, ino in o["dir"].items():
        if ino is None:
            continue
        if name in (CLN, CLN_TMP):
            # clean-marker file (not read by appends or reads, outside C10): only its final version's bytes
            # are known; an intermediate version is left out rather than written with the wrong bytes
            ops = o["files"].get(ino, [])
            if not (len(ops) == 1 and ops[0][0] == "W" and int(ops[0][3]) == srcs.tr["clean_versions"] and int(ops[0][2]) == len(srcs.marker)):
                continue
        with open(os.path.join(kd, srcs.real_name(name)), "wb") as f:
            f.write(file_bytes(o["files"].get(ino, []), srcs.for_name(name)))


def listing(kd, fnames_sorted):
    """directory as {class: bytes}: WAL files by creation order, index file"""
    out = {}
    names = sorted(n for n in os.listdir(kd) if n.isdigit())
    for i, n in enumerate(names):
        out["wal%d" % (i + 1)] = open(os.path.join(kd, n), "rb").read()
    p = os.path.join(kd, NAMES[IDX])
    if os.path.exists(p):
        # rkyv serialises a HashMap in hasher order (random per process): presence and length only
        out["idx"] = len(open(p, "rb").read())
    return out


# ------------------------------------------------------------------------------- the check
def all_names(tr):
    return sorted(tr["fnames"]) + [IDX_TMP, IDX, CLN_TMP, CLN]


def choose_ks(rng, tr, q, corpus):
    mt = tr["mt"]
    n = len(mt)
    if corpus or not q:
        return list(range(0, n + 1))
    ks = {n}
    after_ack_read = [i + 1 for i, e in enumerate(mt) if e.startswith("AR ")]
    after_rename = [i + 1 for i, e in enumerate(mt) if e.startswith("R %d" % IDX_TMP)]
    in_create = [i + 1 for i, e in enumerate(mt) if e[0] in "CL"]
    writes = [i + 1 for i, e in enumerate(mt) if e.startswith("W ")]
    for pool, cnt in ((after_ack_read, 2), (after_rename, 2), (in_create, 1), (writes, 2), (list(range(1, n + 1)), 1)):
        if pool:
            ks.update(rng.sample(pool, min(cnt, len(pool))))
    return sorted(ks)


def choose_bits(rng, uf, ud, q, sub_limit):
    u = uf + ud
    if u <= sub_limit:
        pick = [format(c, "0%db" % u) for c in range(1 << u)] if u else [""]
    else:
        cnt = 5 if q else 48
        pick = {"0" * u, "1" * u}
        # keep an older rename, lose the newer ones: prefixes of zeros
        for z in range(1, min(u, 4 if q else 8)):
            pick.add("0" * z + "1" * (u - z))
        while len(pick) < cnt + 2:
            pick.add("".join(rng.choice("01") for _ in range(u)))
        pick = sorted(pick)
    return [((b[:uf] or "-") + "/" + (b[uf:] or "-")) for b in pick]


def run(ctx):
    tier, rng, driver = ctx["tier"], ctx["rng"], ctx["driver"]
    q = tier == "quick"
    failures, broken = [], []
    wh = C.build_rust("wh", ("walrus_verif", "walrus_verif_small"))
    consts = C.gen_consts()
    B = consts["small"]["DEFAULT_BLOCK_SIZE"]
    workloads = []
    if ctx.get("replay"):
        for f in ctx["replay"].get("failing", []):
            if "workload" in f:
                w = dict(f["workload"]); w["only"] = (f.get("k"), f.get("choice"))
                workloads.append(w)
    workloads += load_corpus()
    nwork = int(os.environ.get("VERIF_C10_N", 12 if q else 48))
    for i in range(nwork):
        workloads.append(gen_workload(rng, B, second_instance=(i % 6 == 5)))
    base = C.shm_dir("c10")
    import time as _t
    _t0 = [_t.time()]
    def lap(what):
        C.log("  [c10 %5.1fs] %s" % (_t.time() - _t0[0], what)); _t0[0] = _t.time()

    # 1) recorded runs, translation, version runs (parallel per workload)
    def prepare(iw):
        i, w = iw
        try:
            run_ = traced_run(wh, w, os.path.join(base, "t%d" % i))
            tr = translate(w, run_)
            blobs, vdirs = version_runs(wh, w, run_, tr, os.path.join(base, "v%d" % i))
            return (run_, tr, blobs, vdirs)
        except Exception as e:      # noqa: BLE001
            return e
    with ThreadPoolExecutor(C.NPROC) as ex:
        prepared = list(ex.map(prepare, enumerate(workloads)))

    lap("recorded runs + version runs")
    # 2) protocol predicate on every recorded trace (as recorded; fixed variant; O_SYNC cleared)
    proto_lines, proto_meta = [], []
    for i, (w, p) in enumerate(zip(workloads, prepared)):
        if isinstance(p, Exception):
            broken.append(dict(kind="harness", what="recorded run failed: %s" % p, workload=dict(hdr=w["hdr"], ops=w["ops"])))
            continue
        tr = p[1]
        t = ";".join(tr["mt"]) or "-"
        t0 = ";".join(re.sub(r"^(W \d+ \d+ \d+ \d+) 1$", r"\1 0", e) for e in tr["mt"]) or "-"
        proto_lines += ["0 | %s | %s" % (PAIRS, t), "1 | %s | %s" % (PAIRS, t), "0 | %s | %s" % (PAIRS, t0)]
        proto_meta.append(i)
    pv, rc, err = C.run_lines([driver, "c10_proto"], proto_lines, timeout=900)
    if len(pv) != len(proto_lines):
        broken.append(dict(kind="harness", what="c10_proto failed rc=%s %s" % (rc, err[-300:])))
        pv += ["<missing>"] * (len(proto_lines) - len(pv))
    variant = {}
    proto_ok_asrec = {}
    nfixed = nproto_bad = 0
    hist_events = {}
    for n_, i in enumerate(proto_meta):
        w = workloads[i]
        run_, tr, blobs, vdirs = prepared[i]
        asrec, fixed, cleared = pv[3 * n_], pv[3 * n_ + 1], pv[3 * n_ + 2]
        wl = dict(hdr=w["hdr"], pre=w["pre"], ops=w["ops"], topics=w["topics"], backend=w["backend"], second=w["second"])
        for e in tr["mt"]:
            hist_events[e.split()[0]] = hist_events.get(e.split()[0], 0) + 1
        for pb in tr["problems"]:
            broken.append(dict(kind="correspondence", what="trace translation: " + pb, workload=wl))
        if any(e.startswith("X ") for e in tr["mt"]):
            broken.append(dict(kind="correspondence", what="a WAL file was removed inside the workload: outside the modelled protocol", workload=wl))
        for label, v in (("as recorded", asrec), ("with every O_SYNC flag cleared (schedule OnceLock taken by an earlier instance)", cleared)):
            if v != "ok":
                nproto_bad += 1
                at = int(v[5:]) if v.startswith("stop:") else -1
                failures.append(dict(kind="protocol", acceptor="proto_ok", workload=wl, classes=[], verdict=v,
                                     event=(tr["mt"][at] if 0 <= at < len(tr["mt"]) else None), context=tr["mt"][max(0, at - 6):at + 1],
                                     what="the recorded I/O trace (%s) does not follow the SyncEach protocol the durability theorem assumes: "
                                          "event %d is refused by the extracted predicate" % (label, at)))
        proto_ok_asrec[i] = (asrec == "ok")
        variant[i] = "fixed" if fixed == "ok" else "unfixed"
        nfixed += fixed == "ok"
        # O_SYNC as the harness sees it vs. the flag used in the translation
        m = re.match(r"fds:(\d+)/(\d+)", run_["fds"])
        if m:
            ns, nt = int(m.group(1)), int(m.group(2))
            if (tr["osync"] and (nt == 0 or ns != nt)) or (not tr["osync"] and ns != 0):
                broken.append(dict(kind="correspondence", what="O_SYNC flag of the translation (%s) disagrees with /proc/self/fdinfo (%s)" % (tr["osync"], run_["fds"]), workload=wl))
    lap("protocol predicate")
    # 3) 'everything kept' directory of the model vs the directory of a really killed process
    recon_checked = recon_bad = 0
    out_lines, out_meta = [], []
    for i in proto_meta:
        run_, tr, blobs, vdirs = prepared[i]
        names = ",".join(map(str, all_names(tr)))
        for v, (n_r, pos) in sorted(tr["ver_event"].items()):
            if v in vdirs:
                out_lines.append("%d | %s | - | %s | -/-" % (pos, names, ";".join(tr["mt"])))
                out_meta.append((i, v, pos))
    # all-kept = every bit 1: ask for the state first to know how many bits
    st_lines = ["%d | %s" % (pos, ";".join(prepared[i][1]["mt"])) for (i, v, pos) in out_meta]
    st, _, _ = C.run_lines([driver, "c10_state"], st_lines, timeout=900)
    for n_, ((i, v, pos), s) in enumerate(zip(out_meta, st)):
        m = re.match(r"uf=(\d+) ud=(\d+)", s)
        uf, ud = int(m.group(1)), int(m.group(2))
        out_lines[n_] = out_lines[n_].rsplit(" | ", 1)[0] + " | %s/%s" % ("1" * uf or "-", "1" * ud or "-")
    oo, _, _ = C.run_lines([driver, "c10_outcomes"], out_lines, timeout=900)
    for (i, v, pos), s in zip(out_meta, oo):
        run_, tr, blobs, vdirs = prepared[i]
        w = workloads[i]
        try:
            o = parse_outcome(s)
            srcs = Source(run_, tr, blobs)
            dest = os.path.join(base, "cmp%d_%d" % (i, v))
            shutil.rmtree(dest, ignore_errors=True)
            materialise(o, srcs, dest)
            a, b = listing(os.path.join(dest, "k"), None), listing(vdirs[v], None)
            shutil.rmtree(dest, ignore_errors=True)
            recon_checked += 1
            if a != b:
                recon_bad += 1
                diff = [k for k in sorted(set(a) | set(b)) if a.get(k) != b.get(k)]
                if recon_bad <= 3:
                    broken.append(dict(kind="correspondence", what="directory predicted by the model for 'all operations kept' differs from the directory of a process killed at the same event",
                                       differs=diff, at_event=pos, workload=dict(hdr=w["hdr"], pre=w["pre"], ops=w["ops"])))
        except Exception as e:      # noqa: BLE001
            broken.append(dict(kind="harness", what="reconstruction comparison failed: %r" % (e,)))

    lap("kill directories vs model")
    # 4) crash points x outcomes -> materialise -> adopt -> drain -> acceptors
    import random as _random
    seeds = {i: rng.getrandbits(48) for i in proto_meta}
    sub_limit = int(os.environ.get("VERIF_C10_SUBSETS", 3 if q else 12))        # all subsets of the unsynced operations up to this many

    def plan(i):
        lrng = _random.Random(seeds[i])
        run_, tr, blobs, vdirs = prepared[i]
        w = workloads[i]
        pjobs, pbroken = [], []
        stats = dict(nstates=0, umax=0, sampled=0, model_lost=0)
        only = w.get("only")
        ks = [only[0]] if only and only[0] is not None else choose_ks(lrng, tr, q, w.get("corpus"))
        t = ";".join(tr["mt"])
        stl = ["%d | %s" % (k, t) for k in ks]
        st, _, _ = C.run_lines([driver, "c10_state"], stl, timeout=1800)
        seen_state = set()
        req, req_meta = [], []
        for k, s_ in zip(ks, st):
            m = re.match(r"uf=(\d+) ud=(\d+) \| (\S+) \| (\S+)", s_)
            if not m:
                pbroken.append(dict(kind="harness", what="c10_state: %r" % s_)); continue
            uf, ud = int(m.group(1)), int(m.group(2))
            stats["umax"] = max(stats["umax"], uf + ud)
            acked_ids = [e.split()[1] for e in tr["mt"][:k] if e.startswith("A ")]
            inflight = next((j for j, oi in enumerate(tr["opinfo"]) if oi["start"] is not None and oi["start"] < k < oi["done"]), None)
            done = tuple(j for j, oi in enumerate(tr["opinfo"]) if oi["done"] <= k)
            key = (s_, len(done), inflight)
            if key in seen_state and not only:
                continue
            seen_state.add(key)
            stats["nstates"] += 1
            choices = [only[1]] if only and only[1] else choose_bits(lrng, uf, ud, q, sub_limit)
            if uf + ud > sub_limit:
                stats["sampled"] += 1
            acks = ",".join("%d:%d:%d:%s" % (tr["data"][int(a_)] + (a_,)) for a_ in acked_ids) or "-"
            req.append("%d | %s | %s | %s | %s" % (k, ",".join(map(str, all_names(tr))), acks, t, " ; ".join(choices)))
            req_meta.append((k, choices, m.group(3), m.group(4), inflight, done))
        oo, _, _ = C.run_lines([driver, "c10_outcomes"], req, timeout=3000)
        for (k, choices, ufs, uds, inflight, done), line in zip(req_meta, oo):
            seen_disk = set()
            for ch, s_ in zip(choices, line.split(" || ")):
                try:
                    o = parse_outcome(s_)
                except Exception:   # noqa: BLE001
                    pbroken.append(dict(kind="harness", what="c10_outcomes: %r" % s_[:200])); continue
                if "0" in o["refl"] or o["ver"].get(IDX) == "torn":
                    stats["model_lost"] += 1
                    if proto_ok_asrec.get(i):
                        pbroken.append(dict(kind="proof", k=k, choice=ch, what="extracted model: an acknowledged write is not reflected, or the index is torn, in an admissible outcome "
                                            "although the trace satisfies proto_ok (contradicts c10_appends_durable / c10_index_old_or_new)"))
                if o["relkey"] in seen_disk and not only:
                    continue
                seen_disk.add(o["relkey"])
                fb, db = ch.split("/")
                lost_d = [d for d, bit in zip(uds.split(","), db if db != "-" else "") if bit == "0"] if uds != "-" else []
                lost_f = [d for d, bit in zip(ufs.split(","), fb if fb != "-" else "") if bit == "0"] if ufs != "-" else []
                pjobs.append((i, k, ch, o, lost_d, lost_f, inflight, done))
        return pjobs, pbroken, stats

    jobs = []
    nstates = umax = sampled_states = model_lost = 0
    with ThreadPoolExecutor(C.NPROC) as ex:
        for pjobs, pbroken, stats in ex.map(plan, proto_meta):
            jobs += pjobs
            broken += pbroken[:3]
            nstates += stats["nstates"]; umax = max(umax, stats["umax"]); sampled_states += stats["sampled"]; model_lost += stats["model_lost"]
    lap("states and outcomes (%d jobs)" % len(jobs))
    # materialise + recover, in chunks to bound /dev/shm use
    results = []
    chunk = 1200
    drained = {}
    for c0 in range(0, len(jobs), chunk):
        part = jobs[c0:c0 + chunk]
        cases = []
        pdirs = []
        for n_, (i, k, ch, o, lost_d, lost_f, inflight, done) in enumerate(part):
            run_, tr, blobs, vdirs = prepared[i]
            w = workloads[i]
            dest = os.path.join(base, "p%d" % (c0 + n_))
            materialise(o, Source(run_, tr, blobs), dest)
            pdirs.append(dest)
            regs = []
            for op in w["ops"]:
                t_, es = CP.entries_of(op)
                for e in es:
                    regs.append("REG %s %s %s" % (t_, e.split(":")[0], e.split(":")[1]))
            cases.append(["CASE r%d mode=strict backend=%s sched=each adopt=%s" % (c0 + n_, w["backend"], dest)] + regs + CP.drain_lines(w["topics"]))
        res = CP.run_cases(wh, cases, "c10r")
        for d in pdirs:
            shutil.rmtree(d, ignore_errors=True)
        results += [(c, r) for c, r in zip(cases, res)]
    lap("materialise + recover")
    # judge
    acc_lines, acc_meta = [], []
    hard = 0
    nlossy = 0
    for (i, k, ch, o, lost_d, lost_f, inflight, done), (case, out) in zip(jobs, results):
        run_, tr, blobs, vdirs = prepared[i]
        w = workloads[i]
        wl = dict(hdr=w["hdr"], pre=w["pre"], ops=w["ops"], topics=w["topics"], backend=w["backend"], second=w["second"])
        if lost_d or lost_f:
            nlossy += 1
        nreg = len(case) - 1 - len(CP.drain_lines(w["topics"]))
        open_out, drain_out = out[0], out[1 + nreg:]
        if open_out != "ok" or any(x in ("panic", "died", "<missing>", "noinstance") or x.startswith("err") for x in drain_out):
            hard += 1
            failures.append(dict(kind="acceptor", acceptor="recovery-failed", k=k, choice=ch, workload=wl, classes=[], lost=lost_d + lost_f,
                                 open=open_out, drain=drain_out[:8], disk=o["key"][:300],
                                 what="opening or draining the post-power-loss directory did not succeed cleanly"))
            continue
        acked, deliv = {}, {}
        for j in done:
            oi = tr["opinfo"][j]
            t_, es = CP.entries_of(oi["line"])
            kind = oi["line"].split()[0]
            if t_ is not None and oi["res"] == "ok":
                acked.setdefault(t_, []).extend(es)
            elif kind in ("R", "BR"):
                deliv.setdefault(oi["line"].split()[1], []).extend(CP.toks_of(oi["res"]))
        infl_t, infl_es, infl_read = None, [], None
        if inflight is not None:
            oi = tr["opinfo"][inflight]
            t_, es = CP.entries_of(oi["line"])
            if t_ is not None:
                infl_t, infl_es = t_, es
            elif oi["line"].split()[0] in ("R", "BR"):
                infl_read = (oi["line"].split()[1], oi["line"].split()[0])
        rec = {}
        for l, x in zip(CP.drain_lines(w["topics"]), drain_out):
            if l.split()[0] in ("R", "BR"):
                rec.setdefault(l.split()[1], []).extend(CP.toks_of(x))
        # mechanism-shaped class, from the case only: the outcome loses a directory operation that put an
        # ACKNOWLEDGED version of the read-offset index in place (its rename), on a trace without the directory fsync
        last_acked = max([int(e.split()[2]) for e in tr["mt"][:k] if e.startswith("AR ")] or [0])
        lost_acked_rename = any(d.startswith("R:%d:%d:" % (IDX_TMP, IDX)) and int(d.split(":")[4]) <= last_acked for d in lost_d)
        cls = [FINDING_CLASS] if (lost_acked_rename and variant[i] == "unfixed") else []
        for t_ in w["topics"]:
            gap = 0
            if infl_read and infl_read[0] == t_:
                gap = 1 if infl_read[1] == "R" else 2000
            a = ",".join(acked.get(t_, [])) or "-"
            inf = (",".join(infl_es) or "-") if infl_t == t_ else "-"
            d = "[" + ";".join(deliv.get(t_, [])) + "]"
            r = "[" + ";".join(rec.get(t_, [])) + "]"
            for which in ("appends", "strict"):
                acc_lines.append("%s | %s | %s | %s | %s | %d" % (which, a, inf, d, r, gap))
                acc_meta.append((i, k, ch, t_, which, cls, lost_d + lost_f, o["key"]))
    verdicts, rc, err = C.run_lines([driver, "accept_c10"], acc_lines, timeout=1800)
    if len(verdicts) != len(acc_lines):
        broken.append(dict(kind="harness", what="acceptor run failed rc=%s %s" % (rc, err[-300:])))
        verdicts += ["<missing>"] * (len(acc_lines) - len(verdicts))
    rejected = {"appends": 0, "strict": 0}
    known_hits = 0
    appends_bad = set()
    for (i, k, ch, t_, which, cls, lost, disk), line, v in zip(acc_meta, acc_lines, verdicts):
        if v == "ok":
            continue
        rejected[which] += 1
        w = workloads[i]
        wl = dict(hdr=w["hdr"], pre=w["pre"], ops=w["ops"], topics=w["topics"], backend=w["backend"], second=w["second"])
        if which == "appends":
            appends_bad.add((i, k, ch, t_))
            failures.append(dict(kind="acceptor", acceptor="c10_appends_ok", k=k, choice=ch, topic=t_, classes=[], judged=line, verdict=v, lost=lost,
                                 disk=disk[:300], workload=wl,
                                 what="power loss after trace event %d, unsynced operations lost %s: an acknowledged append is missing (or entries are skipped/out of order) after recovery" % (k, lost)))
        else:
            if (i, k, ch, t_) in appends_bad:
                continue
            known_hits += bool(cls)
            failures.append(dict(kind="acceptor", acceptor="c10_strict_ok", k=k, choice=ch, topic=t_, classes=cls, judged=line, verdict=v, lost=lost,
                                 disk=disk[:300], workload=wl,
                                 what="power loss after trace event %d, unsynced operations lost %s: the StrictlyAtOnce consumer does not resume where its acknowledged reads left it" % (k, lost)))
    lap("acceptors")
    shutil.rmtree(base, ignore_errors=True)
    ntraces = len(proto_meta)
    cov = dict(
        evaluations=len(jobs), distinct_nontrivial=nlossy,
        rule="one evaluation = one post-power-loss directory (workload, crash point in the recorded trace, admissible outcome) adopted by a fresh process and drained; "
             "outcomes that give the same surviving WAL files and read-offset index are run once; non-trivial = at least one unsynced operation was actually lost (the disk differs from a process-crash image). "
             "quick: %d generated SyncEach workloads + corpus (every crash point), <= 9 crash points each (after acknowledged reads, after index renames, inside file creation, after writes, random, end), all subsets of the unsynced operations up to 3, about 10 chosen above (all lost, all kept, newest 1-3 lost, random); "
             "thorough: every crash point, all subsets up to 12, about 55 chosen above" % nwork,
        traces_validated_against_impl=ntraces + recon_checked,
        samples=[dict(workload=dict(hdr=workloads[i]["hdr"], ops=workloads[i]["ops"][:8]), k=k, choice=ch, lost=(ld + lf)[:6], drain=r[1][-6:])
                 for (i, k, ch, o, ld, lf, _a, _b), r in list(zip(jobs, results))[:3]],
        histogram=dict(workloads=len(workloads), traces=ntraces, traces_following_fixed_index_protocol=nfixed, protocol_violations=nproto_bad,
                       second_instance_workloads=sum(1 for w in workloads if w["second"]), backends=dict((b, sum(1 for w in workloads if w["backend"] == b)) for b in ("fd", "mmap")),
                       model_events=hist_events, crash_states=nstates, outcomes_in_which_the_model_itself_loses_acknowledged_data=model_lost, states_with_sampled_outcomes=sampled_states, max_unsynced_operations=umax,
                       recoveries=len(jobs), lossy_outcomes=nlossy, recovery_failed=hard, acceptor_judgements=len(acc_lines),
                       rejected_appends=rejected["appends"], rejected_strict_position=rejected["strict"], rejected_in_known_class=known_hits,
                       kill_directories_compared_with_model=recon_checked, kill_directories_differing=recon_bad),
        exhaustive=False,
    )
    if os.environ.get("VERIF_C10_DUMP"):
        import json as _json
        _json.dump(dict(failures=failures, broken=broken), open(os.environ["VERIF_C10_DUMP"], "w"), indent=1)
    return dict(failures=failures, broken=broken, coverage=cov)


def classify(f, known):
    cls = set(f.get("classes", []))
    for k in known:
        if k.get("class") in cls and f.get("acceptor") == k.get("acceptor", f.get("acceptor")):
            return k
    return None
