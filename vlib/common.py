"""Shared machinery for ./check: builds (Coq, OCaml driver, Rust harnesses), proof-obligation
accounting, forbidden-token scan, Print Assumptions parsing, evidence, violations."""
import fcntl
import hashlib
import json
import os
import random
import re
import shutil
import subprocess
import sys
import time

VERIF = os.path.dirname(os.path.dirname(os.path.abspath(__file__)))
# Normal runs decide /repo and write into /verif.  For experiments on a scratch worktree of
# the repository (seeded changes, several at once) set VERIF_REPO=<worktree>: every build
# product, the Coq tree (a private copy, since gen/Consts.v is regenerated from the sources),
# the evidence and the replay files then live under <worktree>/.vwork and /verif is not written.
REPO = os.path.realpath(os.environ.get("VERIF_REPO", "/repo"))
ALT = REPO != "/repo"
WORK = os.path.join(REPO, ".vwork") if ALT else os.path.join(VERIF, ".work")
COQ = os.path.join(WORK, "coq") if ALT else os.path.join(VERIF, "coq")
EVIDENCE = os.path.join(WORK, "evidence") if ALT else os.path.join(VERIF, "evidence")
# run directories: one base per (framework copy, repository root), so that concurrent copies
# of the framework and their clean-ups cannot touch each other's cases
SHM = "/dev/shm/walrus-verif" + ("" if (VERIF == "/verif" and not ALT) else "-" + hashlib.sha256((VERIF + "|" + REPO).encode()).hexdigest()[:8])
if ALT:
    os.makedirs(WORK, exist_ok=True)
    subprocess.run(["rsync", "-a", "--delete", os.path.join(VERIF, "coq") + "/", COQ + "/"], check=True)
NPROC = 16

ENV = dict(os.environ)
ENV.update({"CARGO_NET_OFFLINE": "true", "WALRUS_QUIET": "1", "LC_ALL": "C"})

ALLOWED_AXIOMS = set()  # the development is axiom-free; anything printed is reported

FORBIDDEN = re.compile(
    r"\b(Admitted|admit|Axiom|Axioms|Parameter|Parameters|Conjecture|Conjectures|Hypothesis|Hypotheses|Variable|Variables|"
    r"Abort|bypass_check|native_compute)\b|Unset\s+Guard|Unset\s+Positivity|Unset\s+Universe|type-in-type|impredicative-set|Admit\s+Obligations")


class Violation(Exception):
    def __init__(self, prop, what, replay_obj, found_input):
        super().__init__(what)
        self.prop, self.what, self.replay_obj, self.found_input = prop, what, replay_obj, found_input


def log(*a):
    print(*a, file=sys.stderr, flush=True)


def sh(cmd, cwd=None, timeout=1800, env=None, input=None, check=True):
    t0 = time.time()
    p = subprocess.run(cmd, cwd=cwd, env=env or ENV, input=input, stdout=subprocess.PIPE,
                       stderr=subprocess.STDOUT, text=True, timeout=timeout,
                       shell=isinstance(cmd, str))
    if check and p.returncode != 0:
        raise RuntimeError("command failed (%s): %s\n%s" % (p.returncode, cmd, p.stdout[-4000:]))
    log("  [%5.1fs] %s" % (time.time() - t0, cmd if isinstance(cmd, str) else " ".join(cmd)))
    return p


class Lock:
    """One build at a time (checks may be started concurrently)."""
    def __init__(self, name="build"):
        os.makedirs(WORK, exist_ok=True)
        self.path = os.path.join(WORK, name + ".lock")
    def __enter__(self):
        self.f = open(self.path, "w")
        fcntl.flock(self.f, fcntl.LOCK_EX)
        return self
    def __exit__(self, *a):
        fcntl.flock(self.f, fcntl.LOCK_UN)
        self.f.close()


# --------------------------------------------------------------------------- constants
def _eval_const_expr(expr, env):
    expr = re.sub(r"\bas\s+\w+", "", expr)
    expr = re.sub(r"(\d)_(?=\d)", r"\1", expr)
    expr = re.sub(r"(0x[0-9a-fA-F_]+|\d+)(u8|u16|u32|u64|usize|i32|i64)\b", r"\1", expr)
    expr = expr.replace("_", "_")
    def hexfix(m):
        return str(int(m.group(0).replace("_", ""), 16))
    expr = re.sub(r"0x[0-9a-fA-F_]+", hexfix, expr)
    if not re.fullmatch(r"[\w\s\+\-\*/\(\)]*", expr):
        raise ValueError("not a constant expression: " + expr)
    return int(eval(expr.replace("/", "//"), {"__builtins__": {}}, dict(env)))


def parse_rust_consts(path, names, small=False):
    """Evaluate `const NAME: T = expr;` items. An item directly preceded by a
    #[cfg(walrus_verif_small)] attribute is the small-geometry variant, one preceded by
    #[cfg(not(walrus_verif_small))] the real one; unattributed items are both."""
    src = open(path).read()
    env = {}
    pat = re.compile(r"((?:#\[[^\]]*\]\s*)*)(?:pub(?:\([^)]*\))?\s+)?const\s+(\w+)\s*:\s*[\w:]+\s*=\s*([^;]+);")
    for m in pat.finditer(src):
        attrs, name, expr = m.group(1), m.group(2), m.group(3)
        is_small = "cfg(walrus_verif_small)" in attrs
        is_real = "cfg(not(walrus_verif_small))" in attrs
        if (small and is_real) or (not small and is_small):
            continue
        try:
            env[name] = _eval_const_expr(expr.split("//")[0].strip(), env)
        except Exception:
            pass
    missing = [n for n in names if n not in env]
    if missing:
        raise RuntimeError("constants not found in %s: %s" % (path, missing))
    return {n: env[n] for n in names}


def gen_consts():
    """Regenerate coq/gen/Consts.v from /repo's current sources (written only if changed)."""
    cfg_names = ["DEFAULT_BLOCK_SIZE", "BLOCKS_PER_FILE", "MAX_ALLOC", "PREFIX_META_SIZE",
                 "MAX_FILE_SIZE", "MAX_BATCH_ENTRIES", "MAX_BATCH_BYTES"]
    cfg_path = os.path.join(REPO, "src/wal/config.rs")
    real = parse_rust_consts(cfg_path, cfg_names, small=False)
    try:
        small = parse_rust_consts(cfg_path, cfg_names, small=True)
    except Exception:
        small = real
    fnv = parse_rust_consts(cfg_path, ["FNV_OFFSET", "FNV_PRIME"])
    client = parse_rust_consts(os.path.join(REPO, "distributed-walrus/src/client.rs"), ["MAX_FRAME_LEN"])
    # the small-entry threshold literal used by the read planner (three sites, must agree)
    rsrc = open(os.path.join(REPO, "src/wal/runtime/walrus_read.rs")).read()
    lits = set(re.findall(r"(?:size1|data_size)\s*<\s*(\d+)", rsrc))
    if len(lits) != 1:
        raise RuntimeError("small-entry threshold literal not unique in walrus_read.rs: %r" % (lits,))
    fnv["SMALL_ENTRY"] = int(lits.pop())
    lines = ["(* GENERATED by vlib/common.py:gen_consts from /repo sources — do not edit. *)",
             "From Coq Require Import NArith.", "Open Scope N_scope.", ""]
    for k, v in real.items():
        lines.append("Definition src_%s : N := %d." % (k, v))
    for k, v in small.items():
        lines.append("Definition src_small_%s : N := %d." % (k, v))
    for k, v in fnv.items():
        lines.append("Definition src_%s : N := %d." % (k, v))
    for k, v in client.items():
        lines.append("Definition src_%s : N := %d." % (k, v))
    text = "\n".join(lines) + "\n"
    path = os.path.join(COQ, "gen/Consts.v")
    old = open(path).read() if os.path.exists(path) else None
    if old != text:
        with open(path, "w") as f:
            f.write(text)
    return dict(real=real, small=small, fnv=fnv, client=client)


# --------------------------------------------------------------------------- Coq
def coq_files():
    out = []
    for l in open(os.path.join(COQ, "_CoqProject")):
        l = l.strip()
        if l.endswith(".v"):
            out.append(l)
    return out


def scan_forbidden():
    """Source scan of the whole development (comments stripped)."""
    hits = []
    for rel in coq_files():
        src = open(os.path.join(COQ, rel)).read()
        src = strip_coq_comments(src)
        for i, line in enumerate(src.split("\n"), 1):
            if FORBIDDEN.search(line):
                hits.append("%s:%d: %s" % (rel, i, line.strip()))
    return hits


def strip_coq_comments(src):
    out, depth, i = [], 0, 0
    while i < len(src):
        if src.startswith("(*", i):
            depth += 1; i += 2
        elif src.startswith("*)", i) and depth > 0:
            depth -= 1; i += 2
        else:
            if depth == 0:
                out.append(src[i])
            elif src[i] == "\n":
                out.append("\n")
            i += 1
    return "".join(out)


def ensure_coq_makefile():
    mk = os.path.join(COQ, "Makefile")
    cp = os.path.join(COQ, "_CoqProject")
    if not os.path.exists(mk) or os.path.getmtime(mk) < os.path.getmtime(cp):
        sh(["coq_makefile", "-f", "_CoqProject", "-o", "Makefile"], cwd=COQ)


def dep_cone(prop_file):
    """Transitive .v dependencies of a props file inside the development (via coqdep)."""
    p = sh(["coqdep", "-Q", ".", "W"] + coq_files(), cwd=COQ)
    deps = {}
    for line in p.stdout.split("\n"):
        if ":" not in line:
            continue
        lhs, rhs = line.split(":", 1)
        tgt = [t for t in lhs.split() if t.endswith(".vo")]
        if not tgt:
            continue
        v = tgt[0][:-1]
        deps[v] = [d[:-1] for d in rhs.split() if d.endswith(".vo")]
    seen, todo = set(), [prop_file]
    while todo:
        f = todo.pop()
        if f in seen:
            continue
        seen.add(f)
        todo.extend(deps.get(f, []))
    return sorted(seen)


STMT = re.compile(r"^\s*(?:Local\s+|Global\s+|#\[[^\]]*\]\s*)*(Theorem|Lemma|Corollary|Fact|Remark|Proposition|Example)\s+(\w+)", re.M)
CLOSE = re.compile(r"\b(Qed|Defined)\s*\.")


def count_obligations(files):
    names, closed = [], 0
    for rel in files:
        src = strip_coq_comments(open(os.path.join(COQ, rel)).read())
        names += [m.group(2) for m in STMT.finditer(src)]
        closed += len(CLOSE.findall(src))
    return names, closed


def coq_check(prop, extra_targets=()):
    """Build props/<prop>.vo (full .vo build of its cone, never -vos), capture its
    Check/Print Assumptions output, scan for forbidden tokens.  Returns a dict; key
    'ok' False means a proof obligation (or the hygiene scan) failed."""
    res = dict(ok=True, problems=[], axioms=[], statements=[], obligations=0, discharged=0)
    prop_file = "props/%s.v" % prop
    with Lock():
        gen_consts()
        ensure_coq_makefile()
        targets = [prop_file + "o", "extract/Extract.vo"] + list(extra_targets)
        # 1) bring the whole cone up to date (a failure here is a broken proof obligation) ...
        p0 = sh(["timeout", "1500", "make", "-j%d" % NPROC] + targets, cwd=COQ, check=False, timeout=1600)
        # 2) ... then re-check the (tiny) property file alone so that the Check / Print Assumptions
        #    output parsed below is exactly this file's output of this run
        os.utime(os.path.join(COQ, prop_file))
        p = sh(["timeout", "1500", "make", prop_file + "o"], cwd=COQ, check=False, timeout=1600)
        if p0.returncode != 0:
            p = p0
    res["build_log_tail"] = p.stdout[-3000:]
    if p.returncode != 0:
        res["ok"] = False
        m = re.search(r'File "\./([^"]+)", line (\d+)[^\n]*\n(Error:[^\n]*(?:\n[^\n]+){0,6})', p.stdout)
        res["problems"].append("coq build failed: " + (("%s:%s %s" % (m.group(1), m.group(2), m.group(3))) if m else p.stdout[-600:]))
    hits = scan_forbidden()
    if hits:
        res["ok"] = False
        res["problems"].append("forbidden tokens: " + "; ".join(hits[:5]))
    # Print Assumptions output
    out = p.stdout
    closed = len(re.findall(r"Closed under the global context", out))
    ax_blocks = re.findall(r"Axioms:\n((?:.+\n)+?)(?=\S|\Z)", out)
    axioms = []
    for b in ax_blocks:
        for l in b.split("\n"):
            m = re.match(r"^(\S+)\s*:", l)
            if m:
                axioms.append(m.group(1))
    res["axioms"] = sorted(set(axioms))
    bad = [a for a in res["axioms"] if a not in ALLOWED_AXIOMS]
    if bad:
        res["ok"] = False
        res["problems"].append("axioms outside the allowlist: " + ", ".join(bad))
    src = strip_coq_comments(open(os.path.join(COQ, prop_file)).read())
    n_pa = len(re.findall(r"Print\s+Assumptions", src))
    res["print_assumptions"] = n_pa
    if p.returncode == 0 and closed + len(ax_blocks) != n_pa:
        res["ok"] = False
        res["problems"].append("expected %d Print Assumptions reports, saw %d" % (n_pa, closed + len(ax_blocks)))
    cone = dep_cone(prop_file)
    names, nclosed = count_obligations(cone)
    res["cone"] = cone
    res["obligations"] = len(names)
    res["discharged"] = nclosed if p.returncode == 0 else 0
    if p.returncode == 0 and nclosed != len(names):
        res["ok"] = False
        res["problems"].append("statements (%d) and Qed/Defined (%d) differ in the cone" % (len(names), nclosed))
    res["statements"] = [m.group(2) for m in STMT.finditer(src)]
    return res


# --------------------------------------------------------------------------- OCaml driver
def ocaml_sources():
    d = os.path.join(VERIF, "ocaml")
    cmds = sorted(f for f in os.listdir(d) if f.startswith("cmd_") and f.endswith(".ml"))
    return ["util.ml"] + cmds + ["driver.ml"]


def build_driver():
    """Compile the extracted model + ocaml/{util,cmd_*,driver}.ml (only when one of them changed)."""
    with Lock():
        d = os.path.join(WORK, "ocaml")
        os.makedirs(d, exist_ok=True)
        names = ocaml_sources()
        srcs = [os.path.join(COQ, "model.ml"), os.path.join(COQ, "model.mli")] + [os.path.join(VERIF, "ocaml", n) for n in names]
        for s in srcs:
            if not os.path.exists(s):
                raise RuntimeError("missing %s (extraction did not run)" % s)
        h = hashlib.sha256(b"".join(open(s, "rb").read() for s in srcs)).hexdigest()
        stamp = os.path.join(d, "stamp")
        exe = os.path.join(d, "driver")
        if os.path.exists(exe) and os.path.exists(stamp) and open(stamp).read() == h:
            return exe
        for s in srcs:
            shutil.copy(s, d)
        files = "model.mli model.ml " + " ".join(names)
        sh("ocamlfind ocamlopt -w -a -package str -linkpkg %s -o driver" % files, cwd=d, timeout=600)
        open(stamp, "w").write(h)
        return exe


# --------------------------------------------------------------------------- Rust harnesses
def build_rust(crate, cfgs=("walrus_verif",), release=False, bin_name=None):
    """cargo build --offline of harness/<crate> against /repo's working tree.  One target
    directory per cfg set so that neither invalidates the other."""
    tag = crate + ("-" + "-".join(c.replace("walrus_verif", "v") for c in cfgs) if cfgs else "")
    tdir = os.path.join(WORK, "target-" + tag)
    env = dict(ENV)
    env["CARGO_TARGET_DIR"] = tdir
    env["RUSTFLAGS"] = " ".join("--cfg " + c for c in cfgs) + " -Awarnings"
    cmd = ["cargo", "build", "--offline", "-q"] + (["--release"] if release else [])
    with Lock("cargo-" + tag):
        sh(cmd, cwd=os.path.join(harness_root(), crate), env=env, timeout=1800)
    return os.path.join(tdir, "release" if release else "debug", bin_name or crate)


def harness_root():
    """harness/ as is for /repo; for VERIF_REPO runs a copy whose /repo paths (Cargo path
    dependency, #[path] includes) point at the scratch worktree."""
    src = os.path.join(VERIF, "harness")
    if not ALT:
        return src
    dst = os.path.join(WORK, "harness")
    sh(["rsync", "-a", "--delete", "--exclude", "target", src + "/", dst + "/"])
    for root, _, files in os.walk(dst):
        for fn in files:
            if fn.endswith((".rs", ".toml")):
                pth = os.path.join(root, fn)
                txt = open(pth).read()
                new = txt.replace('"/repo/', '"%s/' % REPO).replace('path = "/repo"', 'path = "%s"' % REPO)
                if new != txt:
                    open(pth, "w").write(new)
    return dst


def run_lines(exe_args, lines, timeout=900, env=None, cwd=None):
    """Feed lines to a line-oriented tool, return its output lines (same count expected)."""
    inp = "\n".join(lines) + ("\n" if lines else "")
    p = subprocess.run(exe_args, input=inp, stdout=subprocess.PIPE, stderr=subprocess.PIPE, text=True,
                       env=env or ENV, timeout=timeout, cwd=cwd)
    out = p.stdout.split("\n")
    if out and out[-1] == "":
        out.pop()
    return out, p.returncode, p.stderr[-2000:]


def run_lines_parallel(exe_args, lines, shards=NPROC, **kw):
    from concurrent.futures import ThreadPoolExecutor
    if len(lines) < 2000:
        return run_lines(exe_args, lines, **kw)
    n = len(lines)
    step = (n + shards - 1) // shards
    chunks = [lines[i:i + step] for i in range(0, n, step)]
    with ThreadPoolExecutor(len(chunks)) as ex:
        rs = list(ex.map(lambda c: run_lines(exe_args, c, **kw), chunks))
    out, rc, err = [], 0, ""
    for (o, r, e), c in zip(rs, chunks):
        if len(o) != len(c):
            o = o + ["<missing>"] * (len(c) - len(o))
        out += o
        rc = rc or r
        err = err or e
    return out, rc, err


# --------------------------------------------------------------------------- helpers
def hx(b):
    if isinstance(b, str):
        b = b.encode("utf-8")
    return b.hex() if b else "-"


def unhx(s):
    return b"" if s == "-" else bytes.fromhex(s)


def seed_of_env():
    try:
        return int(os.environ.get("VERIF_SEED", "1"))
    except ValueError:
        return 1


def shm_dir(tag):
    d = os.path.join(SHM, "%s-%d" % (tag, os.getpid()))
    shutil.rmtree(d, ignore_errors=True)
    os.makedirs(d, exist_ok=True)
    return d


def load_known_findings(prop):
    path = os.path.join(VERIF, "known_findings.json")
    if not os.path.exists(path):
        return []
    data = json.load(open(path))
    return [f for f in data.get("findings", []) if f.get("property") == prop and f.get("status") == "open"]


def write_replay(prop, obj):
    d = os.path.join(WORK, "replay")
    os.makedirs(d, exist_ok=True)
    blob = json.dumps(obj, indent=1, sort_keys=True)
    path = os.path.join(d, "%s-%s.json" % (prop, hashlib.sha256(blob.encode()).hexdigest()[:12]))
    open(path, "w").write(blob)
    return path


def write_evidence(prop, tier, seed, coverage, assumptions, wall, violations):
    os.makedirs(EVIDENCE, exist_ok=True)
    ev = dict(property_id=prop, tier=tier, seed=seed, level="proof", coverage=coverage,
              assumptions=assumptions, wall_s=round(wall, 2), violations=violations)
    tmp = os.path.join(EVIDENCE, prop + ".json.tmp")
    json.dump(ev, open(tmp, "w"), indent=1, sort_keys=True)
    os.replace(tmp, os.path.join(EVIDENCE, prop + ".json"))


TRUSTED_BASE_COMMON = [
    "Coq 8.16.1 kernel (coqc full .vo build; vm_compute used in closed computations; no native_compute)",
    "axioms reported by Print Assumptions under every pinned theorem: none (Closed under the global context)",
    "hand-written Gallina model tied to /repo by a differential correspondence run on every check",
    "extraction: ExtrOcamlBasic only (Extract Inductive for bool, option, unit, list, prod, sumbool, sumor; no Extract Constant); N/positive/nat stay inductive",
    "OCaml 4.13.1 compiler, ocaml/driver.ml (parsing and printing only)",
    "vlib/*.py (case generation, canonicalisation, diff) and gen_consts (constant translator)",
]
